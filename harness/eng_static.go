package main

// Engines for the static parser: "static_c01" (transcription, presentation independence), "static_c03" (references, forest),
// "static_c08" (order), "static_c09" (rejected rows inert, warnings), "static_c10" (defaults, fill-in, inheritance),
// "static_c11" (services).  All share the correspondence with Model/Static.v on the file BYTES (so the CSV reader model is
// inside what is compared); each adds the Go-side statement of its property.

import (
	"fmt"
	"reflect"
	"sort"
	"strconv"
	"strings"
	"time"

	"github.com/jamespfennell/gtfs"
	"github.com/jamespfennell/gtfs/warnings"
)

func feedZones(f *sfeed) []string {
	var z []string
	if t := f.table("agency.txt"); t != nil {
		for _, r := range t.rows {
			z = append(z, r["agency_timezone"])
		}
	}
	return z
}

type staticRun struct {
	s   *gtfs.Static
	err error
	cr  callResult
	ms  []member
}

func runStatic(ms []member, store bool, inherit bool) staticRun {
	s, err, cr := parseStaticGuarded(zipMembers(ms, store), gtfs.ParseStaticOptions{InheritWheelchairBoarding: inherit})
	return staticRun{s, err, cr, ms}
}
func describeMembers(ms []member) map[string]string {
	out := map[string]string{}
	for _, m := range ms {
		out[m.name] = m.content
	}
	return out
}

// rejected rows, per file and cause (the property's list: required value missing; required number, time or date unparseable;
// required reference naming an id that does not exist)
func (g *gen) rejectedRow(f *sfeed, name string) (srow, string) {
	t := f.table(name)
	if t == nil || len(t.rows) == 0 {
		return nil, ""
	}
	r := srow{}
	for k, v := range t.rows[g.r.Intn(len(t.rows))] {
		r[k] = v
	}
	// make ids fresh so that a rejected row never collides with a valid one
	blank := func(c string) (srow, string) { r[c] = ""; return r, "blank " + c }
	if len(t.cols) > 1 && g.coin(0.12) { // a record of blank cells only (",,,"): a row like any other, rejected for its missing values
		for k := range r {
			r[k] = ""
		}
		return r, "all cells blank"
	}
	switch name {
	case "agency.txt":
		r["agency_id"] = "REJ"
		return blank(g.pick([]string{"agency_name", "agency_url", "agency_timezone"}))
	case "routes.txt":
		r["route_id"] = "REJ-R"
		if g.coin(0.5) {
			r["agency_id"] = "no-such-agency"
			return r, "unknown agency_id"
		}
		return blank(g.pick([]string{"route_id", "route_type"}))
	case "stops.txt":
		r["parent_station"] = g.pick([]string{"", "S0", "S1"})
		return blank("stop_id")
	case "transfers.txt":
		if g.coin(0.5) {
			r[g.pick([]string{"from_stop_id", "to_stop_id"})] = "no-such-stop"
			return r, "unknown stop"
		}
		return blank(g.pick([]string{"from_stop_id", "to_stop_id"}))
	case "calendar.txt":
		r["service_id"] = "REJ-SV"
		if g.coin(0.4) {
			r[g.pick([]string{"start_date", "end_date"})] = g.pick([]string{"2023-01-01", "20231301", "x", "2023010", "19000229", "21000229", "20230229", "20230431"})
			return r, "unparseable date"
		}
		return blank(g.pick([]string{"service_id", "monday", "sunday", "start_date", "end_date"}))
	case "calendar_dates.txt":
		r["service_id"] = "REJ-SV2"
		if g.coin(0.4) {
			r["date"] = g.pick([]string{"20230230", "x", "2023/01/01", "19000229", "21000229", "20230229", "20230931"})
			return r, "unparseable date"
		}
		return blank(g.pick([]string{"service_id", "date", "exception_type"}))
	case "shapes.txt":
		switch g.r.Intn(3) {
		case 0:
			r[g.pick([]string{"shape_pt_lat", "shape_pt_lon"})] = g.pick([]string{"north", "1,5", "--1"})
			return r, "unparseable coordinate"
		case 1:
			r["shape_pt_sequence"] = g.pick([]string{"one", "1.5", "99999999999", "0x1F", "0b101", "0o17", "1_000", "1e3", " 5", "5 "})
			return r, "unparseable sequence"
		}
		return blank(g.pick([]string{"shape_id", "shape_pt_lat", "shape_pt_lon", "shape_pt_sequence"}))
	case "trips.txt":
		r["trip_id"] = "REJ-T"
		if g.coin(0.5) {
			r[g.pick([]string{"route_id", "service_id"})] = "no-such-id"
			return r, "unknown route or service"
		}
		return blank(g.pick([]string{"route_id", "service_id", "trip_id"}))
	case "frequencies.txt":
		switch g.r.Intn(4) {
		case 0:
			r["trip_id"] = "no-such-trip"
			return r, "unknown trip"
		case 1:
			r["headway_secs"] = g.pick([]string{"fast", "1.5"})
			return r, "unparseable headway"
		case 2:
			r[g.pick([]string{"start_time", "end_time"})] = g.pick([]string{"noon", "1:2:3:4", "12h00", "10:00:00\u00a1", "\xa010:00:00", "10:00:00\xc2", "\u200b10:00:00", "10:00:00\ufeff"})
			return r, "unparseable time"
		}
		return blank(g.pick([]string{"trip_id", "start_time", "end_time", "headway_secs"}))
	case "stop_times.txt":
		switch g.r.Intn(5) {
		case 0:
			r["trip_id"] = "no-such-trip"
			return r, "unknown trip"
		case 1:
			r["stop_id"] = "no-such-stop"
			return r, "unknown stop"
		case 2:
			r["stop_sequence"] = g.pick([]string{"first", "1.0", ""})
			return r, "unparseable sequence"
		case 3:
			r["arrival_time"], r["departure_time"] = g.pick([]string{"", "soon", "1:2:3:4", "10:00:00\u00a1", "\xa010:00:00", "\u200b10:00:00"}), g.pick([]string{"", "late"})
			return r, "no parseable time"
		}
		return blank(g.pick([]string{"trip_id", "stop_id", "stop_sequence"}))
	}
	return nil, ""
}

// C03: every reference in a result, against the rows of the archive that was parsed
func oracleC03(s *gtfs.Static, f *sfeed) string {
	rowsOf := func(name string) []srow {
		if t := f.table(name); t != nil {
			return t.rows
		}
		return nil
	}
	namedIdx := map[string]map[string]bool{}
	named := func(rows []srow, idcol, id, refcol, want string) bool { // is there a row with that id naming want in refcol?
		k := idcol + "\x00" + refcol
		idx, ok := namedIdx[k]
		if !ok {
			idx = map[string]bool{}
			for _, r := range rows {
				idx[r[idcol]+"\x00"+r[refcol]] = true
			}
			namedIdx[k] = idx
		}
		return idx[id+"\x00"+want]
	}
	stIdx := map[string]bool{}
	for _, r := range rowsOf("stop_times.txt") {
		seq := r["stop_sequence"] // the row names a number, in whatever decimal spelling ("007", "+7")
		if n, err := strconv.Atoi(seq); err == nil {
			seq = fmt.Sprint(n)
		}
		stIdx[r["trip_id"]+"\x00"+r["stop_id"]+"\x00"+seq] = true
	}
	for i := range s.Routes {
		r := &s.Routes[i]
		if r.Agency == nil {
			return fmt.Sprintf("route %q has a nil agency", r.Id)
		}
		if idxAgency(s, r.Agency) == foreign {
			return fmt.Sprintf("route %q: agency pointer is not an element of Static.Agencies", r.Id)
		}
		if !named(rowsOf("routes.txt"), "route_id", r.Id, "agency_id", r.Agency.Id) && !(len(s.Agencies) == 1 && named(rowsOf("routes.txt"), "route_id", r.Id, "agency_id", "")) {
			return fmt.Sprintf("route %q is bound to agency %q, which no row of that route names", r.Id, r.Agency.Id)
		}
	}
	for i := range s.Stops {
		x := &s.Stops[i]
		if x.Parent != nil {
			if idxStop(s, x.Parent) == foreign {
				return fmt.Sprintf("stop %q: parent pointer is not an element of Static.Stops", x.Id)
			}
			if !named(rowsOf("stops.txt"), "stop_id", x.Id, "parent_station", x.Parent.Id) {
				return fmt.Sprintf("stop %q has parent %q, which no row of that stop names", x.Id, x.Parent.Id)
			}
		}
		// forest: walking to the root terminates
		n := 0
		for p := x; p != nil; p = p.Parent {
			n++
			if n > len(s.Stops)+1 {
				return fmt.Sprintf("stop %q is its own ancestor: walking to the root does not terminate", x.Id)
			}
		}
	}
	for i := range s.Transfers {
		t := &s.Transfers[i]
		if t.From == nil || t.To == nil || idxStop(s, t.From) == foreign || idxStop(s, t.To) == foreign {
			return "transfer with a nil stop or a stop pointer outside Static.Stops"
		}
		ok := false
		for _, r := range rowsOf("transfers.txt") {
			if r["from_stop_id"] == t.From.Id && r["to_stop_id"] == t.To.Id {
				ok = true
			}
		}
		if !ok {
			return fmt.Sprintf("transfer %q->%q is named by no row", t.From.Id, t.To.Id)
		}
	}
	for i := range s.Trips {
		t := &s.Trips[i]
		if t.Route == nil || t.Service == nil {
			return fmt.Sprintf("trip %q has a nil route or service", t.ID)
		}
		if idxRoute(s, t.Route) == foreign || idxService(s, t.Service) == foreign {
			return fmt.Sprintf("trip %q: route or service pointer is not an element of the result's collection", t.ID)
		}
		if !named(rowsOf("trips.txt"), "trip_id", t.ID, "route_id", t.Route.Id) || !named(rowsOf("trips.txt"), "trip_id", t.ID, "service_id", t.Service.Id) {
			return fmt.Sprintf("trip %q is bound to route %q / service %q, which no row of that trip names", t.ID, t.Route.Id, t.Service.Id)
		}
		if t.Shape != nil {
			if idxShape(s, t.Shape) == foreign {
				return fmt.Sprintf("trip %q: shape pointer is not an element of Static.Shapes", t.ID)
			}
			if !named(rowsOf("trips.txt"), "trip_id", t.ID, "shape_id", t.Shape.ID) {
				return fmt.Sprintf("trip %q has shape %q, which no row of that trip names", t.ID, t.Shape.ID)
			}
		}
		for k := range t.StopTimes {
			st := &t.StopTimes[k]
			if st.Stop == nil || idxStop(s, st.Stop) == foreign {
				return fmt.Sprintf("trip %q stop time %d: nil stop or stop pointer outside Static.Stops", t.ID, k)
			}
			if !stIdx[t.ID+"\x00"+st.Stop.Id+"\x00"+fmt.Sprint(st.StopSequence)] {
				return fmt.Sprintf("trip %q stop time seq %d at stop %q is named by no row", t.ID, st.StopSequence, st.Stop.Id)
			}
		}
	}
	return ""
}

// malformed-leaning mutations for C03 / C05: dangling, blank and duplicate ids, parent cycles
// lateDuplicateCycle: a stop id listed a second time at the end of stops.txt, the second listing naming as its parent a
// stop below the first listing (or the id itself). References resolve to the LAST row carrying an id, so this closes a
// cycle although every parent_station of the file names an id that was already listed when its row is read.
func (g *gen) lateDuplicateCycle(f *sfeed) {
	t := f.table("stops.txt")
	if t == nil || len(t.rows) == 0 {
		return
	}
	i := g.r.Intn(len(t.rows))
	id := t.rows[i]["stop_id"]
	parent := id
	var below []string
	for _, r := range t.rows {
		if r["parent_station"] == id && r["stop_id"] != id {
			below = append(below, r["stop_id"])
		}
	}
	if len(below) > 0 && g.coin(0.7) {
		parent = below[g.r.Intn(len(below))]
	}
	cp := srow{}
	for k, v := range t.rows[i] {
		cp[k] = v
	}
	cp["parent_station"] = parent
	t.rows = append(t.rows, cp)
}

func (g *gen) corruptRefs(f *sfeed) {
	pickRow := func(name string) srow {
		if t := f.table(name); t != nil && len(t.rows) > 0 {
			return t.rows[g.r.Intn(len(t.rows))]
		}
		return nil
	}
	for k := 1 + g.r.Intn(6); k > 0; k-- {
		switch g.r.Intn(10) {
		case 0:
			if r := pickRow("stops.txt"); r != nil {
				r["parent_station"] = r["stop_id"] // self parent
			}
		case 1:
			if t := f.table("stops.txt"); len(t.rows) >= 2 { // mutual / longer cycle
				n := 2 + g.r.Intn(min(3, len(t.rows)-1))
				idx := g.r.Perm(len(t.rows))[:n]
				for i := range idx {
					t.rows[idx[i]]["parent_station"] = t.rows[idx[(i+1)%n]]["stop_id"]
				}
			}
		case 2:
			if r := pickRow("stops.txt"); r != nil {
				r["parent_station"] = g.pick([]string{"dangling", " "})
			}
		case 3:
			if t := f.table("stops.txt"); len(t.rows) >= 2 { // duplicate stop id
				t.rows[g.r.Intn(len(t.rows))]["stop_id"] = t.rows[g.r.Intn(len(t.rows))]["stop_id"]
			}
		case 4:
			if r := pickRow("routes.txt"); r != nil {
				r["agency_id"] = g.pick([]string{"", "dangling"})
			}
		case 5:
			if r := pickRow("trips.txt"); r != nil {
				r[g.pick([]string{"route_id", "service_id", "shape_id"})] = g.pick([]string{"", "dangling"})
			}
		case 6:
			if r := pickRow("stop_times.txt"); r != nil {
				r[g.pick([]string{"trip_id", "stop_id"})] = g.pick([]string{"", "dangling"})
			}
		case 7:
			if t := f.table("trips.txt"); len(t.rows) >= 2 { // duplicate trip id
				t.rows[g.r.Intn(len(t.rows))]["trip_id"] = t.rows[g.r.Intn(len(t.rows))]["trip_id"]
			}
		case 8:
			if t := f.table("routes.txt"); len(t.rows) >= 2 {
				t.rows[g.r.Intn(len(t.rows))]["route_id"] = t.rows[g.r.Intn(len(t.rows))]["route_id"]
			}
		case 9:
			if r := pickRow("transfers.txt"); r != nil {
				r["to_stop_id"] = r["from_stop_id"]
			}
		}
	}
	// keep sequences distinct per trip after trip-id duplication (the model's sort is only faithful on distinct keys)
	if t := f.table("stop_times.txt"); t != nil {
		seen := map[string]bool{}
		var keep []srow
		for _, r := range t.rows {
			k := r["trip_id"] + "\x00" + r["stop_sequence"]
			if !seen[k] {
				seen[k] = true
				keep = append(keep, r)
			}
		}
		t.rows = keep
	}
}
func min(a, b int) int {
	if a < b {
		return a
	}
	return b
}

var defaultBearing = []struct{ file, col, def string }{
	{"routes.txt", "route_color", "FFFFFF"}, {"routes.txt", "route_text_color", "000000"}, {"routes.txt", "continuous_pickup", "1"}, {"routes.txt", "continuous_drop_off", "1"},
	{"stop_times.txt", "pickup_type", "0"}, {"stop_times.txt", "drop_off_type", "0"}, {"stop_times.txt", "continuous_pickup", "1"}, {"stop_times.txt", "continuous_drop_off", "1"},
	{"stop_times.txt", "timepoint", "1"}, {"transfers.txt", "transfer_type", "0"}, {"frequencies.txt", "exact_times", "0"}, {"trips.txt", "direction_id", ""},
	{"trips.txt", "wheelchair_accessible", "0"}, {"trips.txt", "bikes_allowed", "0"}, {"stops.txt", "wheelchair_boarding", "0"}, {"stops.txt", "location_type", "0"},
}

func engineStatic(which string) engineFn {
	return func(ctx *engineCtx) {
		g := &gen{r: ctx.rng}
		n := 60
		if ctx.thorough {
			n = 1200
		}
		ctx.rule = "abstract GTFS feeds (1-3 agencies with real zones incl. DST ones, routes, stops with parent forests, transfers, calendar / calendar_dates / both, shapes, trips, frequencies, stop times; " +
			"times up to 99:59:59, signed many-digit decimals, quoted commas/quotes/newlines) rendered with random presentations (column order, unknown columns and files, member order, Store/Deflate, BOM, CRLF, " +
			"final newline, optional quoting, blank lines) and, per engine, permuted / polluted / re-spelled / corrupted variants; non-trivial = at least 2 trips and one stop time; distinct = distinct archive bytes"
		var cases []string
		seen := map[string]bool{}
		bytesBudget := 400000
		if ctx.thorough {
			bytesBudget = 4000000
		}
		addCase := func(inherit bool, ms []member, s *gtfs.Static, zones []string) {
			sz := 0
			for _, m := range ms {
				sz += len(m.content)
			}
			if sz > 6000 || bytesBudget < sz {
				return
			}
			bytesBudget -= sz
			cases = append(cases, staticCase(inherit, ms, s, zones))
		}
		stats := map[string]int{}
		for i := 0; i < n; i++ {
			size := 2 + g.r.Intn(10)
			if which == "C03" && g.coin(0.1) {
				size = 200 + g.r.Intn(800) // many rows: result slices are re-allocated while being built
			}
			if which == "C03" {
				g.glueP = 0.6
			}
			f := g.wellFormed(size)
			inherit := g.coin(0.5)
			zones := feedZones(f)
			p0 := g.presentation(f)
			ms0 := renderFeed(g, p0, f)
			base := runStatic(ms0, p0.store, inherit)
			ctx.evaluations++
			replay := map[string]any{"members": describeMembers(ms0), "inherit": inherit}
			if base.err != nil || base.cr.panicked || base.cr.hung {
				ctx.violate("parse-static-fails", fmt.Sprint("ParseStatic panicked, hung or failed on a well-formed feed: ", base.cr.msg, base.err), replay)
				continue
			}
			key := string(zipMembers(ms0, true))
			if !seen[key] {
				seen[key] = true
				if len(base.s.Trips) >= 2 {
					ctx.nontrivial++
				}
			}
			baseDump := dumpStatic(base.s)
			if i < 2 {
				ctx.sample(map[string]any{"members": describeMembers(ms0), "result_dump_head": baseDump[:min(6, len(baseDump))]})
			}
			switch which {
			case "C01":
				want := denote(f, inherit)
				if d := diffLines(baseDump, want); d != "" {
					ctx.violate("c01-transcription", "a well-formed feed is not transcribed faithfully: "+d, replay)
				}
				for k := 0; k < 2; k++ { // presentation independence
					p := g.presentation(f)
					ms := renderFeed(g, p, f)
					r := runStatic(ms, p.store, inherit)
					ctx.evaluations++
					if r.err != nil || r.cr.panicked {
						ctx.violate("c01-presentation", fmt.Sprint("a re-presentation of the same tables fails to parse: ", r.err, r.cr.msg), map[string]any{"members": describeMembers(ms)})
					} else if d := diffLines(dumpStatic(r.s), baseDump); d != "" {
						ctx.violate("c01-presentation", "the result depends on the presentation: "+d, map[string]any{"members_a": describeMembers(ms0), "members_b": describeMembers(ms)})
					}
					if k == 0 {
						addCase(inherit, ms, r.s, zones)
					}
				}
			case "C03":
				ff := f.clone()
				if g.coin(0.25) {
					g.lateDuplicateCycle(ff) // and nothing else: no dangling, forward or plain self reference anywhere in the file
				} else {
					g.corruptRefs(ff)
				}
				if ag, rt := ff.table("agency.txt"), ff.table("routes.txt"); len(ag.rows) == 1 && len(rt.rows) > 0 && g.coin(0.6) {
					// a feed with ONE agency and a route that names another one: the reference dangles, the sole agency is not a default for it
					rt.rows[g.r.Intn(len(rt.rows))]["agency_id"] = g.pick([]string{"no-such-agency", ag.rows[0]["agency_id"] + " ", "AG"})
				}
				p := canonicalPresentation(ff)
				ms := renderFeed(nil, p, ff)
				r := runStatic(ms, false, inherit)
				ctx.evaluations++
				rp := map[string]any{"members": describeMembers(ms)}
				if r.cr.panicked || r.cr.hung {
					ctx.violate("c03-crash", "ParseStatic panicked or hung: "+r.cr.msg, rp)
				} else if r.err == nil {
					if msg := oracleC03(r.s, ff); msg != "" {
						ctx.violate("c03-references", msg, rp)
					}
					addCase(inherit, ms, r.s, feedZones(ff))
					stats["corrupted_parsed"]++
				}
				if msg := oracleC03(base.s, f); msg != "" {
					ctx.violate("c03-references", msg, replay)
				}
				if i == 1 {
					// a feed with more stops than a 16-bit index can number, the stations and platforms listed after them
					big := f.clone()
					st := big.table("stops.txt")
					var fill []srow
					for k, nf := 0, 65536+g.r.Intn(40); k < nf; k++ {
						fill = append(fill, srow{"stop_id": fmt.Sprintf("filler-%d", k), "stop_code": "", "stop_name": "filler", "stop_desc": "", "stop_lat": "1.5", "stop_lon": "2.5", "zone_id": "", "stop_url": "",
							"location_type": "0", "parent_station": "", "stop_timezone": "", "wheelchair_boarding": "0", "platform_code": ""})
					}
					st.rows = append(fill, st.rows...)
					for _, x := range [][2]string{{"big-station", ""}, {"big-platform-1", "big-station"}, {"big-platform-2", "big-station"}, {"big-area", "big-platform-1"}} {
						st.rows = append(st.rows, srow{"stop_id": x[0], "stop_code": "", "stop_name": x[0], "stop_desc": "", "stop_lat": "1.5", "stop_lon": "2.5", "zone_id": "", "stop_url": "",
							"location_type": map[bool]string{true: "1", false: "0"}[x[1] == ""], "parent_station": x[1], "stop_timezone": "", "wheelchair_boarding": "0", "platform_code": ""})
					}
					mb := renderFeed(nil, canonicalPresentation(big), big)
					if rb := runStatic(mb, false, inherit); rb.err == nil && !rb.cr.panicked && !rb.cr.hung {
						ctx.evaluations++
						if msg := oracleC03(rb.s, big); msg != "" {
							ctx.violate("c03-references", msg, map[string]any{"members": "the feed below with 65536+ filler stops (filler-0 ...) listed before its own stops", "base_members": describeMembers(ms0), "fillers": len(fill)})
						}
						stats["big_stop_tables"]++
					}
				}
			case "C08":
				for k := 0; k < 3; k++ {
					ff := f.clone()
					for _, name := range []string{"stop_times.txt", "shapes.txt"} {
						if t := ff.table(name); t != nil {
							g.r.Shuffle(len(t.rows), func(a, b int) { t.rows[a], t.rows[b] = t.rows[b], t.rows[a] })
						}
					}
					ms := renderFeed(g, p0, ff)
					r := runStatic(ms, p0.store, inherit)
					ctx.evaluations++
					if r.err != nil || r.cr.panicked {
						ctx.violate("c08-permutation", "parse fails after permuting rows", map[string]any{"members": describeMembers(ms)})
					} else if d := diffLines(dumpStatic(r.s), baseDump); d != "" {
						ctx.violate("c08-permutation", "permuting the rows of stop_times.txt / shapes.txt changes the result: "+d, map[string]any{"members_a": describeMembers(ms0), "members_b": describeMembers(ms)})
					}
					if k == 0 {
						addCase(inherit, ms, r.s, zones)
					}
				}
				// "within each trip the stop times are in ascending stop_sequence" holds of whatever the parser returns, also for
				// a feed that lists a trip id twice (the rows of stop_times.txt in trips.txt order, as exporters write them)
				if tp := f.table("trips.txt"); len(tp.rows) > 1 && g.coin(0.35) {
					dup := f.clone()
					dt := dup.table("trips.txt")
					src := dt.rows[g.r.Intn(len(dt.rows))]
					cp := srow{}
					for kk, vv := range src {
						cp[kk] = vv
					}
					cp["trip_headsign"] = "second listing"
					pos := g.r.Intn(len(dt.rows) + 1)
					dt.rows = append(dt.rows[:pos:pos], append([]srow{cp}, dt.rows[pos:]...)...)
					if st := dup.table("stop_times.txt"); st != nil {
						order := map[string]int{}
						for i, r := range dt.rows {
							if _, ok := order[r["trip_id"]]; !ok {
								order[r["trip_id"]] = i
							}
						}
						sort.SliceStable(st.rows, func(a, b int) bool { return order[st.rows[a]["trip_id"]] < order[st.rows[b]["trip_id"]] })
						if g.coin(0.7) { // within each group: descending or shuffled sequence numbers
							for a, b := 0, len(st.rows)-1; a < b; a, b = a+1, b-1 {
								st.rows[a], st.rows[b] = st.rows[b], st.rows[a]
							}
							sort.SliceStable(st.rows, func(a, b int) bool { return order[st.rows[a]["trip_id"]] < order[st.rows[b]["trip_id"]] })
						}
					}
					md := renderFeed(nil, canonicalPresentation(dup), dup)
					if rd := runStatic(md, false, inherit); rd.err == nil && !rd.cr.panicked && !rd.cr.hung {
						ctx.evaluations++
						for ti := range rd.s.Trips {
							sts := rd.s.Trips[ti].StopTimes
							for k := 1; k < len(sts); k++ {
								if sts[k-1].StopSequence > sts[k].StopSequence {
									ctx.violate("c08-sorted", fmt.Sprintf("trip %d (%q): stop times are not in ascending stop_sequence (%d before %d)", ti, rd.s.Trips[ti].ID, sts[k-1].StopSequence, sts[k].StopSequence), map[string]any{"members": describeMembers(md)})
									break
								}
							}
						}
						addCase(inherit, md, rd.s, feedZones(dup))
					}
				}
				if i == 1 {
					// a feed with more than ten thousand trips, every trip's rows in descending sequence order
					big := f.clone()
					tp, stt := big.table("trips.txt"), big.table("stop_times.txt")
					tmpl := tp.rows[0]
					stopID := big.table("stops.txt").rows[0]["stop_id"]
					for k, nb := 0, 10050+g.r.Intn(300); k < nb; k++ {
						r := srow{}
						for kk, vv := range tmpl {
							r[kk] = vv
						}
						r["trip_id"] = fmt.Sprintf("bulk-%d", k)
						tp.rows = append(tp.rows, r)
						for _, q := range []int{3, 2, 1} {
							stt.rows = append(stt.rows, srow{"trip_id": r["trip_id"], "arrival_time": "10:00:00", "departure_time": "10:00:30", "stop_id": stopID, "stop_sequence": fmt.Sprint(q),
								"stop_headsign": "", "pickup_type": "0", "drop_off_type": "0", "continuous_pickup": "1", "continuous_drop_off": "1", "shape_dist_traveled": "", "timepoint": "1"})
						}
					}
					mb := renderFeed(nil, canonicalPresentation(big), big)
					if rb := runStatic(mb, false, inherit); rb.err == nil && !rb.cr.panicked && !rb.cr.hung {
						ctx.evaluations++
						bad := 0
						firstBad := ""
						for ti := range rb.s.Trips {
							sts := rb.s.Trips[ti].StopTimes
							for k := 1; k < len(sts); k++ {
								if sts[k-1].StopSequence > sts[k].StopSequence {
									if bad == 0 {
										firstBad = rb.s.Trips[ti].ID
									}
									bad++
									break
								}
							}
						}
						if bad > 0 {
							ctx.violate("c08-sorted", fmt.Sprintf("in a feed with %d trips, %d trips (first: %q) have stop times that are not in ascending stop_sequence", len(rb.s.Trips), bad, firstBad),
								map[string]any{"members": "the feed below plus 10050+ trips bulk-0.. each with rows 3,2,1 in stop_times.txt", "base_members": describeMembers(ms0)})
						}
						stats["big_trip_tables"]++
					}
				}
				// order clauses themselves (file order kept, sequences sorted, shapes by id)
				if d := diffLines(baseDump, denote(f, inherit)); d != "" {
					ctx.violate("c08-order", "collection order is not file order / sorted by sequence / shapes by id: "+d, replay)
				}
			case "C09":
				ff := f.clone()
				type ins struct {
					file, cause string
					row         srow
					pos         int
				}
				var inserted []ins
				longRunIn := ""
				if i%12 == 2 {
					longRunIn = []string{"routes.txt", "trips.txt", "stops.txt", "transfers.txt"}[(i/12)%4] // every run has its long runs, file by file
				}
				for k := 1 + g.r.Intn(8); k > 0; k-- {
					name := ff.tables[g.r.Intn(len(ff.tables))].name
					if g.coin(0.3) { // the row loop with the most state carried from row to row
						name = "stop_times.txt"
					}
					if longRunIn != "" && ff.table(longRunIn) != nil {
						name = longRunIn
					}
					row, cause := g.rejectedRow(f, name)
					if row == nil {
						continue
					}
					t := ff.table(name)
					pos := g.r.Intn(len(t.rows) + 1)
					ins1 := []srow{row}
					runMax := 4
					if g.coin(0.06) || longRunIn != "" {
						longRunIn = ""
						runMax = 101 + g.r.Intn(60) // and long runs: the hundred-and-first rejected row of a file is rejected like the first
					}
					for (runMax > 4 || g.coin(0.4)) && len(ins1) < runMax { // runs of identical rejected rows (same unknown id on consecutive rows)
						cp := srow{}
						for kk, vv := range row {
							cp[kk] = vv
						}
						ins1 = append(ins1, cp)
					}
					t.rows = append(t.rows[:pos], append(ins1, t.rows[pos:]...)...)
					for range ins1 {
						inserted = append(inserted, ins{name, cause, row, pos})
					}
					stats["inserted:"+cause] += len(ins1)
				}
				p := canonicalPresentation(ff)
				if g.coin(0.12) {
					// a very wide table: dozens of unknown columns in front of the known ones (a required column at position 64 and beyond)
					for _, tn := range []string{"agency.txt", "stops.txt", "routes.txt", "trips.txt"} {
						var wide []string
						for k, nw := 0, 60+g.r.Intn(12); k < nw; k++ {
							nm := fmt.Sprintf("pad_%d", k)
							wide = append(wide, nm)
							p.extraCell[nm] = ""
						}
						p.colOrder[tn] = append(wide, p.colOrder[tn]...)
					}
				} else if g.coin(0.4) {
					// unknown extra columns, some of them sharing one name (",x_dup,x_dup" or two empty header cells): a row's
					// cell contents are all its cells, however the columns are called
					for k, nm := 1+g.r.Intn(3), g.pick([]string{"x_dup", "", "agency_phone2"}); k > 0; k-- {
						cols := p.colOrder["agency.txt"]
						pos := g.r.Intn(len(cols) + 1)
						p.colOrder["agency.txt"] = append(cols[:pos:pos], append([]string{nm}, cols[pos:]...)...)
						p.extraCell[nm] = g.pick([]string{"junk", "", "7"})
					}
				}
				ms := renderFeed(nil, p, ff)
				ref := runStatic(renderFeed(nil, canonicalPresentation(f), f), false, inherit)
				r := runStatic(ms, false, inherit)
				ctx.evaluations++
				rp := map[string]any{"members": describeMembers(ms), "inserted": fmt.Sprint(inserted)}
				if r.cr.panicked || r.cr.hung || r.err != nil || ref.err != nil {
					ctx.violate("c09-crash", fmt.Sprint("ParseStatic panicked, hung or failed with rejected rows present: ", r.cr.msg, r.err), rp)
					continue
				}
				if d := diffLines(dumpStatic(r.s), dumpStatic(ref.s)); d != "" {
					ctx.violate("c09-inert", "inserting rejected rows changes what the other rows produce: "+d, rp)
				}
				// warnings: file, 1-based row number, exactly that row's cells
				tA := ff.table("agency.txt")
				for _, w := range r.s.Warnings {
					if _, ok := w.Kind.(warnings.AgencyMissingValues); !ok {
						continue
					}
					if string(w.File) != "agency.txt" || w.RowNumber < 1 || w.RowNumber > len(tA.rows) {
						ctx.violate("c09-warning", fmt.Sprintf("warning names file %q row %d", w.File, w.RowNumber), rp)
						continue
					}
					var cells []string
					for _, c := range p.colOrder["agency.txt"] {
						if v, ok := tA.rows[w.RowNumber-1][c]; ok {
							cells = append(cells, v)
						} else {
							cells = append(cells, p.extraCell[c])
						}
					}
					if !reflect.DeepEqual(cells, w.RowContent) {
						ctx.violate("c09-warning", fmt.Sprintf("warning for row %d carries cells %q, the row's cells are %q", w.RowNumber, w.RowContent, cells), rp)
					}
					allBlank := true
					for _, v := range tA.rows[w.RowNumber-1] {
						if v != "" {
							allBlank = false
						}
					}
					if tA.rows[w.RowNumber-1]["agency_id"] != "REJ" && !allBlank {
						ctx.violate("c09-warning", fmt.Sprintf("warning for row %d, which is not a rejected row", w.RowNumber), rp)
					}
				}
				nRejAg := 0
				for _, in := range inserted {
					if in.file == "agency.txt" {
						nRejAg++
					}
				}
				if len(r.s.Warnings) != nRejAg {
					ctx.violate("c09-warning", fmt.Sprintf("%d warnings for %d rejected agency rows", len(r.s.Warnings), nRejAg), rp)
				}
				addCase(inherit, ms, r.s, zones)
			case "C10":
				// (a) blank = absent = default, per default-bearing column
				for _, db := range defaultBearing {
					t := f.table(db.file)
					if t == nil || len(t.rows) == 0 || !g.coin(0.35) {
						continue
					}
					explicit := f.clone()
					for _, r := range explicit.table(db.file).rows {
						r[db.col] = db.def
					}
					if db.col == "location_type" { // "stop" default; keep the hierarchy out of it
						for _, r := range explicit.table("stops.txt").rows {
							r["parent_station"] = ""
						}
					}
					blank, absent, mixed := explicit.clone(), explicit.clone(), explicit.clone()
					for _, r := range blank.table(db.file).rows {
						r[db.col] = ""
					}
					for i, r := range mixed.table(db.file).rows {
						if i%2 == 0 {
							r[db.col] = ""
						}
					}
					ta := absent.table(db.file)
					var cols []string
					for _, c := range ta.cols {
						if c != db.col {
							cols = append(cols, c)
						}
					}
					ta.cols = cols
					for _, r := range ta.rows {
						delete(r, db.col)
					}
					if g.coin(0.5) {
						// an UNKNOWN column whose name differs from the omitted one only by white space is still an unknown column
						look := g.pick([]string{" " + db.col, db.col + " ", "\t" + db.col, db.col + "\u00a0", " " + db.col + " "})
						ta.cols = append(ta.cols, look)
						for _, r := range ta.rows {
							r[look] = g.pick([]string{"2", "1", "00FF00", "3"})
						}
					}
					if g.coin(0.5) {
						// cells that are neither blank nor one of the documented values (zero-padded, signed, spaced, foreign digits): what
						// they decode to is for the model (the decoder tables) to say; run through the correspondence only
						odd := explicit.clone()
						for _, r := range odd.table(db.file).rows {
							if g.coin(0.6) {
								r[db.col] = g.pick([]string{"00", "+0", "-0", "01", "02", "+2", "03", "+3", "000", " 1", "1 ", "2.0", "\u0663", "10", "4", "-1", "0x1"})
							}
						}
						mo := renderFeed(nil, canonicalPresentation(odd), odd)
						if ro := runStatic(mo, false, inherit); ro.err == nil && !ro.cr.panicked && !ro.cr.hung {
							ctx.evaluations++
							addCase(inherit, mo, ro.s, feedZones(odd))
						}
					}
					var dumps [][]string
					var mss [][]member
					okAll := true
					for _, v := range []*sfeed{explicit, blank, absent, mixed} {
						ms := renderFeed(nil, canonicalPresentation(v), v)
						r := runStatic(ms, false, inherit)
						ctx.evaluations++
						if r.err != nil || r.cr.panicked {
							okAll = false
							break
						}
						dumps = append(dumps, dumpStatic(r.s))
						mss = append(mss, ms)
						if g.coin(0.15) {
							addCase(inherit, ms, r.s, zones)
						}
					}
					if !okAll || db.def == "" {
						if okAll {
							for k := 1; k < 4; k++ {
								if d := diffLines(dumps[k], dumps[1]); d != "" {
									ctx.violate("c10-spellings", fmt.Sprintf("%s/%s: blank, absent and mixed spellings differ: %s", db.file, db.col, d), map[string]any{"members": describeMembers(mss[k])})
								}
							}
						}
						continue
					}
					for k, name := range []string{"explicit default", "blank cells", "absent column", "mixed"} {
						if d := diffLines(dumps[k], dumps[0]); d != "" {
							ctx.violate("c10-spellings", fmt.Sprintf("%s/%s: %s does not give the GTFS default %q: %s", db.file, db.col, name, db.def, d), map[string]any{"members": describeMembers(mss[k])})
						}
					}
				}
				// (b) one-sided stop times
				{
					one, both := f.clone(), f.clone()
					t1, t2 := one.table("stop_times.txt"), both.table("stop_times.txt")
					blankDefaults := g.coin(0.5) // the defaults of the other cells must not depend on which time was given
					for k := range t1.rows {
						if g.coin(0.5) {
							t1.rows[k]["departure_time"] = ""
							t2.rows[k]["departure_time"] = t2.rows[k]["arrival_time"]
						} else {
							t1.rows[k]["arrival_time"] = ""
							t2.rows[k]["arrival_time"] = t2.rows[k]["departure_time"]
						}
						if blankDefaults {
							for _, c := range []string{"timepoint", "pickup_type", "drop_off_type", "continuous_pickup", "continuous_drop_off"} {
								t1.rows[k][c] = ""
								t2.rows[k][c] = map[string]string{"timepoint": "1", "pickup_type": "0", "drop_off_type": "0", "continuous_pickup": "", "continuous_drop_off": ""}[c]
							}
						}
					}
					m1, m2 := renderFeed(nil, canonicalPresentation(one), one), renderFeed(nil, canonicalPresentation(both), both)
					r1, r2 := runStatic(m1, false, inherit), runStatic(m2, false, inherit)
					ctx.evaluations++
					if r1.err == nil && r2.err == nil && !r1.cr.panicked && !r2.cr.panicked {
						if d := diffLines(dumpStatic(r1.s), dumpStatic(r2.s)); d != "" {
							ctx.violate("c10-one-sided", "a stop time giving only one of arrival / departure does not take the same value for the other: "+d, map[string]any{"members": describeMembers(m1)})
						}
						addCase(inherit, m1, r1.s, zones)
					}
				}
				// (c) inheritance: on = off except wheelchair boarding of stops whose own value is unspecified and whose parent is a station
				{
					ms := renderFeed(nil, canonicalPresentation(f), f)
					off, on := runStatic(ms, false, false), runStatic(ms, false, true)
					ctx.evaluations++
					if off.err == nil && on.err == nil {
						if d := diffLines(dumpStatic(on.s), denote(f, true)); d != "" {
							ctx.violate("c10-inheritance", "wheelchair-boarding inheritance: "+d, map[string]any{"members": describeMembers(ms)})
						}
						if d := diffLines(dumpStatic(off.s), denote(f, false)); d != "" {
							ctx.violate("c10-inheritance", "with inheritance off: "+d, map[string]any{"members": describeMembers(ms)})
						}
					}
				}
				// (d) the same on a hierarchy with self / mutual parents, duplicates and dangling references: whatever parent links the
				// result has, a stop without a (station) parent in the result keeps its own value, and nothing but wheelchair boarding differs
				if g.coin(0.5) {
					hf := f.clone()
					g.corruptRefs(hf)
					for _, r := range hf.table("stops.txt").rows {
						if g.coin(0.5) {
							r["wheelchair_boarding"] = g.pick([]string{"", "0", "1", "2"})
						}
						if g.coin(0.4) {
							r["location_type"] = "1"
						}
					}
					if st := hf.table("stops.txt"); len(st.rows) >= 2 && g.coin(0.6) {
						// a station with a value that is its own ancestor (alone or with a partner), and stops below it without a value
						si := g.r.Intn(len(st.rows))
						S := st.rows[si]
						S["location_type"], S["wheelchair_boarding"], S["parent_station"] = "1", g.pick([]string{"1", "2"}), S["stop_id"]
						if g.coin(0.4) {
							T := st.rows[(si+1)%len(st.rows)]
							T["location_type"], T["wheelchair_boarding"] = "1", g.pick([]string{"", "1", "2"})
							S["parent_station"], T["parent_station"] = T["stop_id"], S["stop_id"]
						}
						for k, r := range st.rows {
							if k != si && r["parent_station"] != S["stop_id"] && g.coin(0.5) && r["stop_id"] != S["parent_station"] {
								r["parent_station"], r["wheelchair_boarding"] = S["stop_id"], ""
							}
						}
					}
					ms := renderFeed(nil, canonicalPresentation(hf), hf)
					off, on := runStatic(ms, false, false), runStatic(ms, false, true)
					ctx.evaluations++
					if off.err == nil && on.err == nil && !off.cr.panicked && !on.cr.panicked && !off.cr.hung && !on.cr.hung && len(off.s.Stops) == len(on.s.Stops) {
						rp := map[string]any{"members": describeMembers(ms)}
						mask := func(l []string) []string {
							var out []string
							for _, x := range l {
								if strings.HasPrefix(x, "stop ") {
									if k := strings.Index(x, " wb="); k >= 0 {
										x = x[:k] + " wb=*" + x[k+5:]
									}
								}
								out = append(out, x)
							}
							return out
						}
						if d := diffLines(mask(dumpStatic(on.s)), mask(dumpStatic(off.s))); d != "" {
							ctx.violate("c10-inheritance", "enabling inheritance changes something other than wheelchair boarding: "+d, rp)
						}
						for i := range on.s.Stops {
							a, b := &off.s.Stops[i], &on.s.Stops[i]
							switch {
							case a.WheelchairBoarding != gtfs.WheelchairBoarding_NotSpecified && b.WheelchairBoarding != a.WheelchairBoarding:
								ctx.violate("c10-inheritance", fmt.Sprintf("stop %q has its own wheelchair-boarding value %d, with inheritance it becomes %d", a.Id, a.WheelchairBoarding, b.WheelchairBoarding), rp)
							case a.WheelchairBoarding == gtfs.WheelchairBoarding_NotSpecified && (b.Parent == nil || b.Parent.Type != gtfs.StopType_Station) && b.WheelchairBoarding != gtfs.WheelchairBoarding_NotSpecified:
								ctx.violate("c10-inheritance", fmt.Sprintf("stop %q has no parent station in the result, yet with inheritance its unspecified wheelchair boarding becomes %d", a.Id, b.WheelchairBoarding), rp)
							}
						}
						addCase(true, ms, on.s, feedZones(hf))
					}
				}
			case "C11":
				// calendars profile: more services and exceptions before / inside / after the range, odd exception types, unloadable zone
				ff := f.clone()
				if g.coin(0.3) {
					// the first agency's zone decides, also when it cannot be loaded (then UTC) and a later agency has a perfectly good one
					ag := ff.table("agency.txt")
					ag.rows[0]["agency_timezone"] = g.pick([]string{"Not/AZone", "Mars/Olympus", "EST5EDT"})
					if len(ag.rows) < 2 {
						extra := srow{}
						for kk, vv := range ag.rows[0] {
							extra[kk] = vv
						}
						extra["agency_id"], extra["agency_name"] = "AG-LATER", "later agency"
						ag.rows = append(ag.rows, extra)
					}
					ag.rows[1]["agency_timezone"] = g.pick([]string{"America/New_York", "Asia/Kolkata", "Australia/Sydney", "Europe/London"})
				}
				cd := ff.table("calendar_dates.txt")
				var svcIDs []string
				for _, t := range ff.table("trips.txt").rows {
					svcIDs = append(svcIDs, t["service_id"])
				}
				if g.coin(0.2) {
					// an exception exactly one calendar day outside the range, across the 23-hour day on which the zone springs forward
					z, d0, d1 := "America/New_York", "20240310", "20240311"
					if g.coin(0.4) {
						z, d0, d1 = g.pick([]string{"Europe/London", "Europe/London"}), "20240331", "20240401"
					}
					for _, a := range ff.table("agency.txt").rows {
						a["agency_timezone"] = z
					}
					if cal := ff.table("calendar.txt"); cal != nil && len(cal.rows) > 0 && g.coin(0.6) {
						if g.coin(0.5) {
							cal.rows[0]["start_date"], cal.rows[0]["end_date"] = "20240101", d0
							cd.rows = append(cd.rows, srow{"service_id": cal.rows[0]["service_id"], "date": d1, "exception_type": g.pick([]string{"1", "2"})})
						} else {
							cal.rows[0]["start_date"], cal.rows[0]["end_date"] = d1, "20241231"
							cd.rows = append(cd.rows, srow{"service_id": cal.rows[0]["service_id"], "date": d0, "exception_type": g.pick([]string{"1", "2"})})
						}
					} else {
						a, b := d0, d1
						if g.coin(0.5) {
							a, b = d1, d0
						}
						cd.rows = append([]srow{{"service_id": "DST-DAYS", "date": a, "exception_type": "1"}, {"service_id": "DST-DAYS", "date": b, "exception_type": g.pick([]string{"1", "2"})}}, cd.rows...)
					}
				} else if g.coin(0.2) {
					// dates are dates whatever the year: a range or a first exception on 0001-01-01 (in UTC the zero value of
					// Go's time.Time) is a date like any other
					for _, a := range ff.table("agency.txt").rows {
						a["agency_timezone"] = "UTC"
					}
					if cal := ff.table("calendar.txt"); cal != nil && len(cal.rows) > 0 && g.coin(0.6) {
						cal.rows[0]["start_date"] = "00010101"
						cd.rows = append(cd.rows, srow{"service_id": cal.rows[0]["service_id"], "date": g.pick([]string{"00010101", "00010102", "20230615", "99991231"}), "exception_type": g.pick([]string{"1", "2"})})
					} else {
						cd.rows = append([]srow{{"service_id": "YEAR-ONE", "date": "00010101", "exception_type": "1"}, {"service_id": "YEAR-ONE", "date": g.pick([]string{"00010102", "20230615"}), "exception_type": g.pick([]string{"1", "2"})}}, cd.rows...)
					}
				}
				for k := g.r.Intn(25); k > 0; k-- {
					cd.rows = append(cd.rows, srow{"service_id": g.pick(svcIDs), "date": g.date(), "exception_type": g.pick([]string{"1", "2"})})
				}
				g.r.Shuffle(len(cd.rows), func(a, b int) { cd.rows[a], cd.rows[b] = cd.rows[b], cd.rows[a] })
				odd := ff.clone() // rows with other exception types must neither create nor stretch a service
				oc := odd.table("calendar_dates.txt")
				for k := g.r.Intn(4); k > 0; k-- {
					oc.rows = append(oc.rows, srow{"service_id": g.pick(append(svcIDs, "GHOST")), "date": g.pick([]string{"19990101", "20991231"}), "exception_type": g.pick([]string{"0", "3", "x", "01", "+1", "257", "258", "513", "02", "+2", "001", "-254", " 1", "1 ", "1.0"})})
				}
				// well-formed digits that name no day: such rows are rejected (neither create nor stretch nor add)
				imp := ff.clone()
				impossible := []string{"20230229", "20230431", "20230931", "20231301", "20230100", "20230132", "00000000", "20240230", "19000229", "21000229", "22000229", "01000229", "20230000", "20231232"}
				ic := imp.table("calendar_dates.txt")
				for k := 1 + g.r.Intn(4); k > 0; k-- {
					row := srow{"service_id": g.pick(append(svcIDs, "GHOST")), "date": g.pick(impossible), "exception_type": g.pick([]string{"1", "2"})}
					pos := g.r.Intn(len(ic.rows) + 1)
					ic.rows = append(ic.rows[:pos], append([]srow{row}, ic.rows[pos:]...)...)
				}
				if cal := imp.table("calendar.txt"); cal != nil && len(cal.rows) > 0 && g.coin(0.5) {
					bad := srow{}
					for kk, vv := range cal.rows[0] {
						bad[kk] = vv
					}
					bad["service_id"] = "BADCAL"
					bad[g.pick([]string{"start_date", "end_date"})] = g.pick(impossible)
					cal.rows = append(cal.rows, bad)
				}
				mi := renderFeed(nil, canonicalPresentation(imp), imp)
				if ri := runStatic(mi, false, inherit); ri.err == nil && !ri.cr.panicked {
					ctx.evaluations++
					if rr := runStatic(renderFeed(nil, canonicalPresentation(ff), ff), false, inherit); rr.err == nil {
						if d := diffLines(dumpStatic(ri.s), dumpStatic(rr.s)); d != "" {
							ctx.violate("c11-impossible-date", "a calendar / calendar_dates row whose date names no day (e.g. 20230229, 20230431) is not rejected: "+d, map[string]any{"members": describeMembers(mi)})
						}
					}
					addCase(inherit, mi, ri.s, feedZones(imp))
				}
				ms, mo := renderFeed(nil, canonicalPresentation(ff), ff), renderFeed(nil, canonicalPresentation(odd), odd)
				r, ro := runStatic(ms, false, inherit), runStatic(mo, false, inherit)
				ctx.evaluations++
				rp := map[string]any{"members": describeMembers(ms)}
				if r.err != nil || r.cr.panicked || ro.err != nil || ro.cr.panicked {
					ctx.violate("c11-crash", "ParseStatic failed on a calendar feed", rp)
					continue
				}
				if d := diffLines(dumpStatic(r.s), denote(ff, inherit)); d != "" {
					ctx.violate("c11-services", "services are not the merge of calendar.txt and calendar_dates.txt the property describes: "+d, rp)
				}
				if d := diffLines(dumpStatic(ro.s), dumpStatic(r.s)); d != "" {
					ctx.violate("c11-ignored-types", "exception rows of a type other than 1/2 change the services: "+d, map[string]any{"members": describeMembers(mo)})
				}
				ids := map[string]bool{}
				for _, v := range r.s.Services {
					if ids[v.Id] {
						ctx.violate("c11-unique", "two services with id "+v.Id, rp)
					}
					ids[v.Id] = true
					for _, d := range append(append([]time.Time{}, v.AddedDates...), v.RemovedDates...) {
						if d.Before(v.StartDate) || v.EndDate.Before(d) {
							ctx.violate("c11-range", fmt.Sprintf("service %q: exception date %v outside [%v, %v]", v.Id, d, v.StartDate, v.EndDate), rp)
						}
					}
				}
				addCase(inherit, ms, r.s, feedZones(ff))
				addCase(inherit, mo, ro.s, feedZones(odd))
			}
			addCase(inherit, ms0, base.s, zones)
		}
		var keys []string
		for k := range stats {
			keys = append(keys, k)
		}
		sort.Strings(keys)
		ctx.distribution["feeds"] = n
		ctx.distribution["stats"] = stats
		ctx.distribution["correspondence_cases"] = len(cases)
		shard := 6
		for i, k := 0, 0; i < len(cases); i, k = i+shard, k+1 {
			j := i + shard
			if j > len(cases) {
				j = len(cases)
			}
			ctx.caseFile(fmt.Sprintf("static_%s_%d", which, k), "Model.Csv Model.Static", staticCaseType, staticCaseOk, cases[i:j])
		}
		_ = strings.Join
	}
}
