package main

// Engine "dirsource" (C19): real temporary directories (under /verif/.work, removed afterwards) holding good feeds,
// sub-directories, empty / truncated / corrupt files, dangling symlinks and files that vanish after the listing,
// under arbitrary names; the sequence journal.DirectoryGtfsrtSource.Next returns is compared with Model/DirSource.v
// (in Coq) and, Go-side, with the property stated directly; the journal built from the directory is compared with
// the journal built from its good files alone.

import (
	"fmt"
	"os"
	"path/filepath"
	"reflect"
	"sort"
	"time"

	"github.com/jamespfennell/gtfs"
	"github.com/jamespfennell/gtfs/extensions/nycttrips"
	"github.com/jamespfennell/gtfs/journal"
	gtfsrt "github.com/jamespfennell/gtfs/proto"
	"google.golang.org/protobuf/proto"
)

func (g *gen) nyctFeed(ts uint64) []byte {
	m := &gtfsrt.FeedMessage{Header: header(ts)}
	n := g.r.Intn(4)
	for i := 0; i < n; i++ {
		origin := 60000 + g.r.Intn(3)*100
		td := &gtfsrt.TripDescriptor{TripId: ptr(fmt.Sprintf("%06d_L..N", origin)), RouteId: ptr("L"), StartDate: ptr("20231114")}
		proto.SetExtension(td, gtfsrt.E_NyctTripDescriptor, &gtfsrt.NyctTripDescriptor{TrainId: ptr(fmt.Sprintf("0L %04d", origin)), IsAssigned: ptr(g.coin(0.8)), Direction: gtfsrt.NyctTripDescriptor_NORTH.Enum()})
		tu := &gtfsrt.TripUpdate{Trip: td}
		for s := g.r.Intn(3); s < 5; s++ {
			tu.StopTimeUpdate = append(tu.StopTimeUpdate, &gtfsrt.TripUpdate_StopTimeUpdate{StopId: ptr(fmt.Sprintf("L0%dN", s)),
				Arrival: &gtfsrt.TripUpdate_StopTimeEvent{Time: ptr(int64(ts) + int64(100*s))}})
		}
		m.Entity = append(m.Entity, &gtfsrt.FeedEntity{Id: ptr(fmt.Sprint(i)), TripUpdate: tu})
	}
	if g.coin(0.25) && len(m.Entity) > 0 {
		// the same message with its fields in another order on the wire (entities before the header): protobuf fields may
		// come in any order, and a file that decodes and parses is a good file whatever its first byte
		ents, err1 := proto.MarshalOptions{AllowPartial: true}.Marshal(&gtfsrt.FeedMessage{Entity: m.Entity})
		hdr, err2 := proto.MarshalOptions{AllowPartial: true}.Marshal(&gtfsrt.FeedMessage{Header: m.Header})
		if err1 == nil && err2 == nil {
			return append(append([]byte{}, ents...), hdr...)
		}
	}
	return marshal(m)
}

type dirEntry struct {
	name    string
	kind    string // good, dir, empty, truncated, corrupt, dangling, vanish
	content []byte
	ts      int64
}

// a file is good iff it decodes as a complete GTFS-realtime message (strict proto2 decoding: required fields present) - decided
// with the harness's own proto.Unmarshal, not with the library under test - and then parses
func parseLikeJournal(b []byte) *gtfs.Realtime {
	if decodeMsg(b) == nil {
		return nil
	}
	return parseLikeJournalLib(b)
}
func parseLikeJournalLib(b []byte) *gtfs.Realtime {
	r, err := gtfs.ParseRealtime(b, &gtfs.ParseRealtimeOptions{Extension: nycttrips.Extension(nycttrips.ExtensionOpts{FilterStaleUnassignedTrips: true})})
	if err != nil {
		return nil
	}
	return r
}

func engineDirsource(ctx *engineCtx) {
	g := &gen{r: ctx.rng}
	n := 120
	if ctx.thorough {
		n = 1500
	}
	ctx.rule = "real temporary directories: 0-12 entries with random names (spaces, non-ASCII, bytes that are not valid UTF-8, leading dots, mixed case, digits of different length), each a good GTFS-realtime file (a quarter of them with the entities written before the header), " +
		"a sub-directory, an empty / truncated / corrupt file, a dangling or self-referential symlink, a symlink to a directory, or a file deleted or replaced by a directory between listing and Next; all-bad and empty directories included; " +
		"non-trivial = at least one good and one bad entry; distinct = distinct (names, kinds) layout"
	base := filepath.Join(filepath.Dir(ctx.outDir), fmt.Sprintf("dirs-%d", os.Getpid()))
	os.MkdirAll(base, 0o755)
	defer os.RemoveAll(base)
	namePool := []string{"a.pb", "A.pb", "b.pb", "B.pb", "c", "10.pb", "9.pb", "2.pb", "feed 1", "feed_1", ".hidden", "é.pb", "z", "Z", "00", "0", "_", "~x", "feed-0002", "feed-0010", "feed-0001",
		"feed-\xe9.pb", "\xff.pb", "feed-\xff\xfe", "\xc3.pb"} // the last four: names that are not valid UTF-8 (legal on Linux)
	kinds := []string{"good", "good", "good", "good", "dir", "empty", "truncated", "corrupt", "dangling", "vanish", "symdir", "selfloop", "replaced"}
	var cases []string
	slowLeft := 2 // directories read by a slow consumer (each costs a second)
	layouts := map[string]bool{}
	kindCount := map[string]int{}
	far0, far1 := time.Unix(-1<<40, 0), time.Unix(1<<40, 0)
	for it := 0; it < n; it++ {
		dir := filepath.Join(base, fmt.Sprintf("d%d", it))
		if g.coin(0.2) { // the directory's own name is a name like any other: brackets, stars, question marks, backslashes, spaces
			dir = filepath.Join(base, fmt.Sprintf("d%d-", it)+g.pick([]string{"feeds[2024]", "feeds[1]", "a*b", "what?", "back\\slash", "feeds[", "sp ace", "[a-z]", "{x,y}", "~", "é"}))
		}
		os.MkdirAll(dir, 0o755)
		cnt := g.r.Intn(13)
		perm := g.r.Perm(len(namePool))
		var entries []dirEntry
		allBad := g.coin(0.1)
		sameSnapshot := g.coin(0.2) // every good file of the directory carries the same bytes (an unchanged feed polled repeatedly)
		var lastGood []byte
		var lastTs int64
		for i := 0; i < cnt && i < len(perm); i++ {
			e := dirEntry{name: namePool[perm[i]], kind: kinds[g.r.Intn(len(kinds))]}
			if allBad && e.kind == "good" {
				e.kind = "corrupt"
			}
			e.ts = int64(1700000000 + 100*it + i)
			p := filepath.Join(dir, e.name)
			good := g.nyctFeed(uint64(e.ts))
			if (e.kind == "good" || e.kind == "vanish") && lastGood != nil && (sameSnapshot || g.coin(0.15)) {
				good, e.ts = lastGood, lastTs // byte-identical to an earlier file: still a file of its own
			}
			if e.kind == "good" || e.kind == "vanish" {
				lastGood, lastTs = good, e.ts
			}
			switch e.kind {
			case "good", "vanish":
				e.content = good
				os.WriteFile(p, good, 0o644)
			case "dir":
				os.MkdirAll(p, 0o755)
				os.WriteFile(filepath.Join(p, "inner.pb"), good, 0o644)
			case "empty":
				e.content = []byte{}
				os.WriteFile(p, e.content, 0o644)
			case "truncated":
				e.content = good[:len(good)/2+1]
				if len(good) > 3 && g.coin(0.5) {
					e.content = good[:len(good)-1]
				}
				os.WriteFile(p, e.content, 0o644)
			case "corrupt":
				e.content = []byte("this is not a protobuf \xff\xfe\x00")
				os.WriteFile(p, e.content, 0o644)
			case "dangling":
				os.Symlink(filepath.Join(dir, "does-not-exist"), p)
			case "symdir": // a symbolic link to a directory elsewhere ("latest -> 2024-01-01/"): not a file that can be read
				tgt := filepath.Join(base, fmt.Sprintf("tgt-%d-%d", it, i))
				os.MkdirAll(tgt, 0o755)
				os.WriteFile(filepath.Join(tgt, "inner.pb"), good, 0o644)
				os.Symlink(tgt, p)
			case "selfloop": // a symbolic link to itself
				os.Symlink(p, p)
			case "replaced": // a file when the directory is listed, a directory by the time it is read
				os.WriteFile(p, good, 0o644)
			}
			kindCount[e.kind]++
			entries = append(entries, e)
		}
		var src *journal.DirectoryGtfsrtSource
		var err error
		var got []*gtfs.Realtime
		nGood := 0
		lastIsGood := false
		{
			srt := append([]dirEntry{}, entries...)
			sort.Slice(srt, func(i, j int) bool { return srt[i].name < srt[j].name })
			for _, e := range srt {
				if e.kind == "good" && parseLikeJournal(e.content) != nil {
					nGood++
				}
			}
			lastIsGood = len(srt) > 0 && srt[len(srt)-1].kind == "good" && parseLikeJournal(srt[len(srt)-1].content) != nil
		}
		slow := lastIsGood && slowLeft > 0
		if slow {
			slowLeft--
		}
		r := guarded(30*time.Second, func() {
			src, err = journal.NewDirectoryGtfsrtSource(dir)
			if err != nil {
				return
			}
			for _, e := range entries {
				if e.kind == "vanish" {
					os.Remove(filepath.Join(dir, e.name))
				}
				if e.kind == "replaced" {
					os.Remove(filepath.Join(dir, e.name))
					os.MkdirAll(filepath.Join(dir, e.name), 0o755)
				}
			}
			for k := 0; k < len(entries)+3; k++ {
				if slow && k == nGood-1 {
					time.Sleep(1100 * time.Millisecond) // a consumer that takes its time before asking for the last file
				}
				x := src.Next()
				if x == nil {
					// then it ends: must keep returning nil
					for q := 0; q < 3; q++ {
						if src.Next() != nil {
							ctx.violate("dirsource-resumes-after-end", "Next returned a feed after having returned nil", map[string]any{"dir": describeDir(entries)})
						}
					}
					break
				}
				got = append(got, x)
			}
		})
		ctx.evaluations++
		if r.panicked || r.hung || err != nil {
			ctx.violate("dirsource-fails", fmt.Sprint("directory source panicked, hung or failed: ", r.msg, err), map[string]any{"dir": describeDir(entries)})
			continue
		}
		// expected: good files (that parse), in bytewise name order, once each
		sorted := append([]dirEntry{}, entries...)
		sort.Slice(sorted, func(i, j int) bool { return sorted[i].name < sorted[j].name })
		var want []int64
		var goodFeeds []*gtfs.Realtime
		hasGood, hasBad := false, false
		var coqEntries []string
		for _, e := range entries {
			ent := "Unreadable"
			if e.kind == "good" || e.kind == "empty" || e.kind == "truncated" || e.kind == "corrupt" {
				if p := parseLikeJournal(e.content); p != nil {
					ent = "(File (Some " + cZ(p.CreatedAt.Unix()) + "))"
				} else {
					ent = "(File None)"
				}
			}
			coqEntries = append(coqEntries, cPair(cStr(e.name), ent))
		}
		for _, e := range sorted {
			if e.kind == "good" || e.kind == "empty" || e.kind == "truncated" || e.kind == "corrupt" {
				// readable: whether it is "good" is decided by the parser itself (a truncation may still parse)
				if p := parseLikeJournal(e.content); p != nil {
					want = append(want, p.CreatedAt.Unix())
					goodFeeds = append(goodFeeds, p)
					hasGood = true
					continue
				}
			}
			hasBad = true
		}
		var gotTs []int64
		for _, x := range got {
			gotTs = append(gotTs, x.CreatedAt.Unix())
		}
		if !reflect.DeepEqual(gotTs, want) {
			ctx.violate("dirsource-sequence", fmt.Sprintf("Next yielded feeds %v, want the good files in name order %v", gotTs, want), map[string]any{"dir": describeDir(entries)})
		} else {
			for i := range got {
				if !reflect.DeepEqual(projectRT(got[i]), projectRT(goodFeeds[i])) {
					ctx.violate("dirsource-content", "a yielded feed differs from the parse of its file", map[string]any{"dir": describeDir(entries), "index": i})
				}
			}
		}
		// journal from the directory == journal from the good files alone (vanishing files are re-created for a second listing)
		j1 := journal.BuildJournal(&sliceSource{feeds: got}, far0, far1)
		j2 := journal.BuildJournal(&sliceSource{feeds: goodFeeds}, far0, far1)
		if cJournal(j1) != cJournal(j2) {
			ctx.violate("dirsource-journal", "journal built from the directory differs from the journal built from its good files alone", map[string]any{"dir": describeDir(entries)})
		}
		if hasGood && hasBad {
			key := fmt.Sprint(describeDir(entries))
			if !layouts[key] {
				layouts[key] = true
				ctx.nontrivial++
			}
		}
		var gotC []string
		for _, t := range gotTs {
			gotC = append(gotC, cZ(t))
		}
		cases = append(cases, cPair(cList(coqEntries), cList(gotC)))
		if it < 3 {
			ctx.sample(map[string]any{"dir": describeDir(entries), "yielded": gotTs})
		}
		os.RemoveAll(dir)
	}
	// large directories: more entries than any listing batch of the OS interface (Readdirnames / getdents), created in a
	// shuffled order, so that "sorted" has to come from the source itself
	nLarge := 1
	if ctx.thorough {
		nLarge = 6
	}
	for it := 0; it < nLarge; it++ {
		dir := filepath.Join(base, fmt.Sprintf("large%d", it))
		os.MkdirAll(dir, 0o755)
		cnt := 1100 + g.r.Intn(900)
		type lf struct {
			name string
			ts   int64
		}
		var files []lf
		used := map[string]bool{}
		for len(files) < cnt {
			name := fmt.Sprintf("%08x.pb", g.r.Uint32())
			if !used[name] {
				used[name] = true
				files = append(files, lf{name, int64(1800000000 + len(files))})
			}
		}
		for _, f := range files { // creation order = generation order (random names): unrelated to name order
			os.WriteFile(filepath.Join(dir, f.name), marshal(&gtfsrt.FeedMessage{Header: header(uint64(f.ts))}), 0o644)
		}
		os.MkdirAll(filepath.Join(dir, "00000000.dir"), 0o755)
		os.WriteFile(filepath.Join(dir, "7fffffff.bad"), []byte("not a feed \xff"), 0o644)
		sort.Slice(files, func(i, j int) bool { return files[i].name < files[j].name })
		var got []int64
		r := guarded(60*time.Second, func() {
			src, err := journal.NewDirectoryGtfsrtSource(dir)
			if err != nil {
				return
			}
			for x := src.Next(); x != nil; x = src.Next() {
				got = append(got, x.CreatedAt.Unix())
			}
		})
		ctx.evaluations++
		kindCount["large-directory-files"] += cnt
		okSeq := len(got) == len(files)
		firstBad := -1
		for i := 0; okSeq && i < len(files); i++ {
			if got[i] != files[i].ts {
				okSeq, firstBad = false, i
			}
		}
		if r.panicked || r.hung || !okSeq {
			ctx.violate("dirsource-sequence", fmt.Sprintf("a directory of %d good files (names %%08x.pb, created in random order) plus a sub-directory and a corrupt file: Next yielded %d feeds, first out of name order at position %d (%s)", cnt, len(got), firstBad, r.msg),
				map[string]any{"files": cnt, "how": "names are 8 hex digits + .pb, header timestamp = 1800000000 + creation index; expected: ascending names"})
		}
	}
	ctx.distribution["directories"] = n
	ctx.distribution["entry_kinds"] = kindCount
	ctx.caseFile("dirsource_0", "Model.DirSource", "(list (string * entry (option Z)) * list Z)",
		"fun c => let '(d, got) := c in match drain (option Z) Z (fun b => b) (S (List.length d)) d (new_source (option Z) d) with Ok l => if list_eq_dec Z.eq_dec l got then true else false | _ => false end", cases)
}

func describeDir(es []dirEntry) []string {
	var out []string
	for _, e := range es {
		out = append(out, fmt.Sprintf("%q:%s", e.name, e.kind))
	}
	return out
}

// projectRT is a printable deep projection of a parse result used for equality of feeds
func projectRT(r *gtfs.Realtime) string {
	var ts []string
	for i := range r.Trips {
		ts = append(ts, cTrip(&r.Trips[i]))
	}
	return fmt.Sprint(r.CreatedAt.Unix(), ts, len(r.Vehicles), len(r.Alerts))
}
