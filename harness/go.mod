module gtfsverif

go 1.18

require (
	github.com/jamespfennell/gtfs v0.0.0
	google.golang.org/protobuf v1.27.1
)

require golang.org/x/text v0.9.0 // indirect

replace github.com/jamespfennell/gtfs => /repo
