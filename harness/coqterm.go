package main

// Printing Go values as Coq (Gallina) concrete syntax for the case files (DESIGN §5).

import (
	"fmt"
	"strings"
	"time"

	"github.com/jamespfennell/gtfs"
)

// cStr renders a Go string (a byte sequence) as a Coq string term.
func cStr(s string) string {
	printable := true
	for i := 0; i < len(s); i++ {
		if s[i] < 0x20 || s[i] > 0x7e {
			printable = false
			break
		}
	}
	if !printable {
		var b strings.Builder
		b.WriteString("(bs [")
		for i := 0; i < len(s); i++ {
			if i > 0 {
				b.WriteString(";")
			}
			fmt.Fprintf(&b, "%d", s[i])
		}
		b.WriteString("]%N)")
		return b.String()
	}
	const chunk = 1500
	if len(s) <= chunk {
		return `"` + strings.ReplaceAll(s, `"`, `""`) + `"`
	}
	var parts []string
	for i := 0; i < len(s); i += chunk {
		j := i + chunk
		if j > len(s) {
			j = len(s)
		}
		parts = append(parts, `"`+strings.ReplaceAll(s[i:j], `"`, `""`)+`"`)
	}
	return "(String.concat \"\" [" + strings.Join(parts, "; ") + "])"
}

func cZ(i int64) string {
	if i < 0 {
		return fmt.Sprintf("(%d)", i)
	}
	return fmt.Sprintf("%d", i)
}
func cU(i uint64) string { return fmt.Sprintf("%d", i) }
func cNat(i int) string  { return fmt.Sprintf("%d%%nat", i) }
func cBool(b bool) string {
	if b {
		return "true"
	}
	return "false"
}
func cSome(s string) string { return "(Some " + s + ")" }
func cOptStr(p *string) string {
	if p == nil {
		return "None"
	}
	return cSome(cStr(*p))
}
func cList(items []string) string { return "[" + strings.Join(items, "; ") + "]" }
func cPair(a, b string) string    { return "(" + a + ", " + b + ")" }

type field struct{ name, val string }

func cRec(fs ...field) string {
	var parts []string
	for _, f := range fs {
		parts = append(parts, f.name+" := "+f.val)
	}
	return "{| " + strings.Join(parts, "; ") + " |}"
}

func cBytes(b []byte) string {
	var sb strings.Builder
	sb.WriteString("[")
	for i, x := range b {
		if i > 0 {
			sb.WriteString(";")
		}
		fmt.Fprintf(&sb, "%d", x)
	}
	sb.WriteString("]")
	return sb.String()
}

// ---- projections of realtime result types (Model/RtTypes.v) ----

func cInstant(t time.Time) string {
	return cPair(cZ(t.Unix()), cStr(t.Location().String()))
}
func cOptInstant(t *time.Time) string {
	if t == nil {
		return "None"
	}
	return cSome(cInstant(*t))
}
func cOptU32(p *uint32) string {
	if p == nil {
		return "None"
	}
	return cSome(cU(uint64(*p)))
}
func cOptI32(p *int32) string {
	if p == nil {
		return "None"
	}
	return cSome(cZ(int64(*p)))
}

func cEvent(e *gtfs.StopTimeEvent) string {
	if e == nil {
		return "None"
	}
	d := "None"
	if e.Delay != nil {
		d = cSome(cZ(int64(*e.Delay)))
	}
	return cSome(cRec(field{"ev_time", cOptInstant(e.Time)}, field{"ev_delay", d}, field{"ev_unc", cOptI32(e.Uncertainty)}))
}

func cStu(u *gtfs.StopTimeUpdate) string {
	return cRec(field{"su_seq", cOptU32(u.StopSequence)}, field{"su_stop", cOptStr(u.StopID)},
		field{"su_arr", cEvent(u.Arrival)}, field{"su_dep", cEvent(u.Departure)},
		field{"su_track", cOptStr(u.NyctTrack)}, field{"su_rel", cZ(int64(u.ScheduleRelationship))})
}

func cTripKey(k *gtfs.TripID) string {
	return cRec(field{"k_id", cStr(k.ID)}, field{"k_route", cStr(k.RouteID)}, field{"k_dir", cZ(int64(k.DirectionID))},
		field{"k_has_time", cBool(k.HasStartTime)}, field{"k_time", cZ(int64(k.StartTime))},
		field{"k_has_date", cBool(k.HasStartDate)}, field{"k_date", cInstant(k.StartDate)},
		field{"k_rel", cZ(int64(k.ScheduleRelationship))})
}

func cVehicleID(v *gtfs.VehicleID) string {
	return cRec(field{"vi_id", cStr(v.ID)}, field{"vi_label", cStr(v.Label)}, field{"vi_plate", cStr(v.LicensePlate)})
}

func cTrip(t *gtfs.Trip) string {
	var stus []string
	for i := range t.StopTimeUpdates {
		stus = append(stus, cStu(&t.StopTimeUpdates[i]))
	}
	veh := "None"
	if t.Vehicle != nil {
		if t.Vehicle.ID == nil {
			veh = "(Some None)"
		} else {
			veh = cSome(cSome(cVehicleID(t.Vehicle.ID)))
		}
	}
	return cRec(field{"tr_key", cTripKey(&t.ID)}, field{"tr_stus", cList(stus)}, field{"tr_vehicle", veh}, field{"tr_in_msg", cBool(t.IsEntityInMessage)})
}
