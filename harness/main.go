package main

import (
	"fmt"
	"io"
	"log"
	"os"
	"runtime/pprof"
)

func main() {
	log.SetOutput(io.Discard)
	if len(os.Args) < 2 {
		fmt.Fprintln(os.Stderr, "usage: harness <witness|gen|engine> ...")
		os.Exit(2)
	}
	switch os.Args[1] {
	case "witness":
		os.Exit(runWitnesses(os.Args[2:]))
	case "gen":
		os.Exit(runGen(os.Args[2:]))
	case "conc-child":
		if devnull, err := os.OpenFile(os.DevNull, os.O_WRONLY, 0); err == nil {
			os.Stdout = devnull
		}
		os.Exit(runConcChild(os.Args[2:]))
	case "purity-child":
		if devnull, err := os.OpenFile(os.DevNull, os.O_WRONLY, 0); err == nil {
			os.Stdout = devnull
		}
		os.Exit(runPurityChild(os.Args[2:]))
	case "engine":
		// the library prints diagnostics with fmt.Printf: keep them out of our output
		if devnull, err := os.OpenFile(os.DevNull, os.O_WRONLY, 0); err == nil {
			os.Stdout = devnull
		}
		if pf := os.Getenv("VERIF_CPUPROFILE"); pf != "" {
			if f, err := os.Create(pf); err == nil {
				pprof.StartCPUProfile(f)
				rc := runEngine(os.Args[2:])
				pprof.StopCPUProfile()
				f.Close()
				os.Exit(rc)
			}
		}
		os.Exit(runEngine(os.Args[2:]))
	default:
		fmt.Fprintln(os.Stderr, "unknown command", os.Args[1])
		os.Exit(2)
	}
}
